"""C19 - BADA-3 fuel-burn integration keeps mass, thrust and fuel flow consistent.

Deciding step: complete enumeration of two declared finite lattices on the real
Bada3FuelBurnModel driven with the library's own Bada3AircraftParameters object:

  * a point lattice (engine type x parameter set x altitude x temperature offset x cruise
    pattern x mass, each case a 30-point array over speed x climb rate x acceleration) on
    calculate_thrust / calculate_specific_ground_range, and
  * a profile lattice on the four iterate_flight_simulation_* entry points.

Oracle: vf/ref/c19_bada3_ref.py (scalar BADA-3, same fixed-point iteration and trapezoid rule).
The trapezoid clause is checked on the *returned* profile against the fuel flow of the last
evaluation the entry point itself made (observed at calculate_specific_ground_range, whose
inputs and outputs are re-derived by the scalar reference), so it does not depend on how a
variant arranges its iteration.
"""

from __future__ import annotations

import itertools
import math

from vf.ref import c19_bada3_ref as ref
from vf.runner import HarnessError, V

ID = 'C19'
LEVEL = 'exploration'
ENGINE = 'bex'
RULE = (
    'point lattice: engine x parameter set x 8 altitudes (incl. both sides of the descent-thrust '
    'altitude and of the tropopause) x 5 temperature offsets (incl. the C_Tc4 and 0.4-clip boundaries) x 3 '
    'cruise patterns x 3 masses, 30 points (2 speeds x 5 climb rates x 3 accelerations) per case; profile '
    'lattice: engine x parameter set x n x altitude profile x speed schedule x cruise pattern x segment '
    'length (scalar / per-segment array) x wind x mass x iteration count x entry point, and for the '
    'fuel-dependent entry points initial estimate x MTOW x load factor x reserve menus; histories: all ordered '
    'pairs of an 8-call menu on one model object, and pairs differing in exactly one argument (every argument of '
    'every entry point, both orders), each with fresh arrays and with the same array objects refilled in place; '
    'profiles with points above the thrust ceiling / turboprop beyond C_f2 (only finite, never-increasing, '
    'prescribed end and MTOW clauses judged there); two different model objects (all ordered pairs of the six '
    'parameter sets) one after the other on identical argument values. In every multi-call case the arrays '
    'returned by the first call must be unchanged after the second, and no call may modify its argument arrays. '
    'Representations: the same argument values as bool / 0-1 integer / 0.0-1.0 float / list / scalar cruise '
    'flags, scalars for constant profiles, strided views and read-only arrays. '
    'Boundary coefficient sets: each of 13 single-coefficient boundary values (zero descent-thrust, fuel, drag and '
    'temperature coefficients, neutral cruise factors, h_p_des=0) on descent and mixed profiles. '
    'Altitude extremes: -300 m ... -1 denormal, 0, tropopause +/- 1 ulp, 24 999 m and 25 000 m as point altitudes '
    'and as the low end of climb / descent / mixed profiles. '
    'A profile case is '
    'non-trivial when fuel was burnt; distinct = distinct case'
)
ASSUMPTIONS = [
    'six synthetic but physically plausible BADA-3 coefficient sets (two per engine type); real OPF data is licensed and not used',
    'piston C_f1 is taken in kg/s exactly as the code uses it (docstrings give no unit or equation number for piston fuel flow)',
    'fuel per metre is taken as 0 where ground speed / fuel flow < 1 m/kg (the integration guard in update_mass_vector); no lattice point is within 1e-9 of that or any other branch point (such cases would be classed ambiguous and skipped; the count is reported as an outcome class)',
    'array inputs are float64 / bool numpy arrays of equal length; per-segment lengths are an array of n-1 entries',
    'outside the envelope (negative BADA-3 thrust limit or fuel coefficient) the equations and trapezoid clauses are not judged: the property text gives no meaning to negative fuel flow; never-increasing, finite, prescribed end and MTOW are judged',
    'unit factors and ISA constants have the digits used by AEIC.units / AEIC.constants (checked at worker start)',
]

RTOL = 1e-10
ENTRY = {
    'ci': 'iterate_flight_simulation_constant_initial_mass',
    'cf': 'iterate_flight_simulation_constant_final_mass',
    'fr': 'iterate_flight_simulation_fuel_burn_dependent_initial_mass_rf_fraction',
    'fv': 'iterate_flight_simulation_fuel_burn_dependent_initial_mass_rf_value',
}
F_SUBSCRIPT = 'C19-params-not-subscriptable'
F_STALE = 'C19-fuel-dependent-stale-tail'
F_BACKWARD = 'C19-backward-segment-lengths-reversed'

# --------------------------------------------------------------------------- parameter sets

_COMMON = dict(c_tcr=0.95, c_f3=0.0, c_f4=0.0, c_tdes_app=0.15, c_tdes_ld=0.35)

PSETS = {
    'Jet': [
        dict(
            par=dict(
                engine_type='Jet', ac_type='JETA', S_ref=122.6, c_d0cr=0.025, c_d2cr=0.036,
                min_mass=39000.0, ref_mass=64000.0, max_mass=77000.0, max_payload=21500.0,
                c_tc1=142000.0, c_tc2=48500.0, c_tc3=2.7e-11, c_tc4=9.0, c_tc5=0.0085,
                c_tdes_low=0.045, c_tdes_high=0.09, h_p_des=13000.0, c_f1=0.72, c_f2=1070.0, c_fcr=0.93,
            ),
            env=dict(h_lo=1500.0, h_cr=10500.0, v_lo=130.0, v_cr=230.0, steep=18.0, gentle=3.0, des=-20.0,
                     alts=[0.0, 1500.0, 'des-', 'des+', 10500.0, 11000.0, 11000.5, 12500.0]),
        ),
        dict(
            par=dict(
                engine_type='Jet', ac_type='JETB', S_ref=361.6, c_d0cr=0.019, c_d2cr=0.045,
                min_mass=129000.0, ref_mass=200000.0, max_mass=275000.0, max_payload=50000.0,
                c_tc1=395000.0, c_tc2=52500.0, c_tc3=5.4e-11, c_tc4=7.5, c_tc5=-0.002,
                c_tdes_low=0.02, c_tdes_high=0.06, h_p_des=29000.0, c_f1=0.61, c_f2=950.0, c_fcr=0.92,
            ),
            env=dict(h_lo=3000.0, h_cr=11500.0, v_lo=150.0, v_cr=250.0, steep=15.0, gentle=2.0, des=-22.0,
                     alts=[0.0, 3000.0, 'des-', 'des+', 10999.5, 11000.0, 11500.0, 13000.0]),
        ),
    ],
    'Turboprop': [
        dict(
            par=dict(
                engine_type='Turboprop', ac_type='TPA', S_ref=61.0, c_d0cr=0.029, c_d2cr=0.033,
                min_mass=12500.0, ref_mass=20000.0, max_mass=22800.0, max_payload=7500.0,
                c_tc1=7.4e6, c_tc2=38000.0, c_tc3=500.0, c_tc4=12.0, c_tc5=0.007,
                c_tdes_low=0.04, c_tdes_high=0.1, h_p_des=9000.0, c_f1=5.2, c_f2=950.0, c_fcr=0.95,
            ),
            env=dict(h_lo=1000.0, h_cr=6000.0, v_lo=80.0, v_cr=140.0, steep=9.0, gentle=2.0, des=-12.0,
                     alts=[0.0, 1000.0, 'des-', 'des+', 4500.0, 6000.0, 7000.0, 7600.0]),
        ),
        dict(
            par=dict(
                engine_type='Turboprop', ac_type='TPB', S_ref=54.4, c_d0cr=0.031, c_d2cr=0.036,
                min_mass=10000.0, ref_mass=14500.0, max_mass=16500.0, max_payload=4000.0,
                c_tc1=5.1e6, c_tc2=33000.0, c_tc3=-300.0, c_tc4=10.0, c_tc5=0.0,
                c_tdes_low=0.03, c_tdes_high=0.08, h_p_des=8000.0, c_f1=4.6, c_f2=800.0, c_fcr=0.97,
            ),
            env=dict(h_lo=800.0, h_cr=5000.0, v_lo=75.0, v_cr=125.0, steep=8.0, gentle=1.5, des=-11.0,
                     alts=[0.0, 800.0, 'des-', 'des+', 3500.0, 5000.0, 6000.0, 7000.0]),
        ),
    ],
    'Piston': [
        dict(
            par=dict(
                engine_type='Piston', ac_type='PSA', S_ref=16.2, c_d0cr=0.032, c_d2cr=0.053,
                min_mass=750.0, ref_mass=1000.0, max_mass=1150.0, max_payload=300.0,
                c_tc1=90.0, c_tc2=17500.0, c_tc3=2.1e5, c_tc4=15.0, c_tc5=0.005,
                c_tdes_low=0.06, c_tdes_high=0.12, h_p_des=4000.0, c_f1=0.0085, c_f2=0.0, c_fcr=0.9,
            ),
            env=dict(h_lo=300.0, h_cr=2500.0, v_lo=40.0, v_cr=55.0, steep=8.0, gentle=2.0, des=-8.0,
                     alts=[0.0, 300.0, 'des-', 'des+', 2000.0, 2500.0, 3500.0, 4500.0]),
        ),
        dict(
            par=dict(
                engine_type='Piston', ac_type='PSB', S_ref=18.0, c_d0cr=0.03, c_d2cr=0.05,
                min_mass=1400.0, ref_mass=1900.0, max_mass=2300.0, max_payload=500.0,
                c_tc1=150.0, c_tc2=20000.0, c_tc3=3.6e5, c_tc4=10.0, c_tc5=-0.001,
                c_tdes_low=0.05, c_tdes_high=0.1, h_p_des=5000.0, c_f1=0.016, c_f2=0.0, c_fcr=0.85,
            ),
            env=dict(h_lo=500.0, h_cr=3000.0, v_lo=50.0, v_cr=75.0, steep=9.0, gentle=2.0, des=-9.0,
                     alts=[0.0, 500.0, 'des-', 'des+', 2500.0, 3000.0, 4000.0, 5000.0]),
        ),
    ],
}  # fmt: skip
for _e in PSETS.values():
    for _s in _e:
        _s['par'] = {**_COMMON, **_s['par']}

ENGINES = ['Jet', 'Turboprop', 'Piston']
MASSES = ['min_mass', 'ref_mass', 'max_mass']
DT = ['-10', '0', 'c_tc4', 'c_tc4+10', '+80']
CRUISE = ['none', 'all', 'middle']
PT_CRUISE = ['none', 'all', 'alternating']
PROFILES = ['level', 'climb', 'descent', 'mixed']
SPEEDS = ['constant', 'accelerating']
SEG_ARRAY = [1000.0, 50000.0, 5000.0, 200000.0]


# Boundary values of single coefficients (case key 'pvar'): exact zeros and the neutral values the
# BADA-3 formulas document, which make thrust or fuel flow exactly 0 (or a correction vanish) at some
# points. The reference reads the same modified set, so the oracle is unchanged.
PVARS = {
    'c_tdes_low=0': {'c_tdes_low': 0.0},
    'c_tdes_high=0': {'c_tdes_high': 0.0},
    'c_tdes_low=c_tdes_high=0': {'c_tdes_low': 0.0, 'c_tdes_high': 0.0},
    'c_f1=0': {'c_f1': 0.0},
    'c_fcr=0': {'c_fcr': 0.0},
    'c_fcr=1': {'c_fcr': 1.0},
    'c_tcr=1': {'c_tcr': 1.0},
    'c_tc3=0': {'c_tc3': 0.0},
    'c_tc4=0': {'c_tc4': 0.0},
    'c_tc5=0': {'c_tc5': 0.0},
    'c_d0cr=0': {'c_d0cr': 0.0},
    'c_d2cr=0': {'c_d2cr': 0.0},
    'h_p_des=0': {'h_p_des': 0.0},
}


# Extremes of the altitude range the atmosphere helpers accept: below sea level, around 0, around the
# tropopause (+/- 1 ulp), just below the 25 km limit (case key 'altx' indexes this list).
ALT_EXTREMES = [
    -300.0, -50.0, -3.0, -5e-324, 0.0, 5e-324, 50.0,
    math.nextafter(11000.0, 0.0), 11000.0, math.nextafter(11000.0, 1e9), 24999.0, 25000.0,
]  # fmt: skip


def _pset(case):
    s = PSETS[case['eng']][case['ps']]
    pv = case.get('pvar')
    if pv:
        s = dict(s, par={**s['par'], **PVARS[pv]})
    return s


def _alt_value(s, a):
    if a == 'des-':
        return s['par']['h_p_des'] * ref.FOOT * (1 - 1e-7)
    if a == 'des+':
        return s['par']['h_p_des'] * ref.FOOT * (1 + 1e-7)
    return a


def _dt_value(s, d):
    c4 = s['par']['c_tc4']
    return {'-10': -10.0, '0': 0.0, 'c_tc4': c4, 'c_tc4+10': c4 + 10.0, '+80': 80.0}[d]


# --------------------------------------------------------------------------- input construction


def _point_inputs_base(case):
    s = _pset(case)
    env = s['env']
    alt = ALT_EXTREMES[case['altx']] if 'altx' in case else _alt_value(s, env['alts'][case['alt']])
    temp = ref.isa_temperature(alt) + _dt_value(s, DT[case['dT']])
    m = s['par'][MASSES[case['m']]]
    pts = list(
        itertools.product(
            [env['v_lo'], env['v_cr']], [env['des'], -1.0, 0.0, env['gentle'], env['steep']], [-0.3, 0.0, 0.4]
        )
    )
    n = len(pts)
    cr = PT_CRUISE[case['cr']]
    return {
        'mass': [m] * n,
        'temperature': [temp] * n,
        'altitude': [alt] * n,
        'v_tas': [p[0] for p in pts],
        'rocd': [p[1] for p in pts],
        'acceleration': [p[2] for p in pts],
        'in_cruise': [cr == 'all' or (cr == 'alternating' and i % 2 == 1) for i in range(n)],
        'groundspeed': [p[0] + (15.0 if i % 3 == 0 else -10.0) for i, p in enumerate(pts)],
    }


def _profile_inputs_base(case):
    s = _pset(case)
    env = s['env']
    n = case['n']
    lo, hi = env['h_lo'], env['h_cr']
    if 'altx' in case:  # the profile starts / ends at one of the altitude extremes
        lo = ALT_EXTREMES[case['altx']]
    alt, rocd, acc, v = [], [], [], []
    for i in range(n):
        t = i / (n - 1)
        pr = case['prof']
        if pr == 'level':
            a, r = hi, 0.0
        elif pr == 'climb':
            a = lo + (hi - lo) * t
            r = env['steep'] if t < 0.5 else (env['gentle'] if i < n - 1 else 0.0)
        elif pr == 'descent':
            a = hi - (hi - lo) * t
            r = env['des'] if i < n - 1 else -1.0
        else:  # mixed: climb, level, descent
            if t < 1 / 3 or (n == 2 and i == 0):
                a, r = lo + (hi - lo) * 3 * t, (env['steep'] if i == 0 else env['gentle'])
            elif t <= 2 / 3 and n > 2:
                a, r = hi, 0.0
            else:
                a, r = hi - (hi - lo) * (3 * t - 2), env['des']
        alt.append(a)
        rocd.append(r)
        if case['spd'] == 'constant':
            v.append(env['v_cr'])
            acc.append(-0.1 if r < -1.0 else 0.0)
        else:
            v.append(env['v_lo'] + (env['v_cr'] - env['v_lo']) * t)
            acc.append(0.3 if t < 0.5 else 0.05)
    mid = range(n // 3, max(n // 3 + 1, (2 * n + 2) // 3))
    cr = case['cr']
    seg = case['seg']
    return {
        'temperature': [ref.isa_temperature(a) + (20.0 if i % 2 else 0.0) for i, a in enumerate(alt)],
        'altitude': alt,
        'v_tas': v,
        'rocd': rocd,
        'acceleration': acc,
        'in_cruise': [cr == 'all' or (cr == 'middle' and i in mid) for i in range(n)],
        'groundspeed': [x + case['gs'] for x in v],
        'segment_distance': [SEG_ARRAY[i % 4] for i in range(n - 1)] if seg == 'array' else float(seg),
    }


def _fuel_menu_base(case):
    s = _pset(case)
    p = s['par']
    oew, mpl, lf = p['min_mass'], p['max_payload'], case['lf']
    est = {'ref': p['ref_mass'], 'high': p['max_mass'], 'low': p['min_mass']}[case['est']]
    mtow = p['max_mass'] if case['mtow'] == 'max' else oew + mpl * lf + 0.001 * p['max_mass']
    if case['k'] == 'fr':
        reserve = [0.0, 0.05, 0.5][case['res']]
    else:
        reserve = [0.0, 0.01 * p['max_mass'], 0.05 * p['max_mass']][case['res']]
    return dict(est=est, mtow=mtow, oew=oew, mpl=mpl, lf=lf, reserve=reserve)


# One-argument variations (case key 'vary'): the named argument of the call is perturbed and every
# other argument stays bit-identical to the base call. Used by the history sub-lattices to enumerate
# "second call on the same object that differs in exactly one argument".
ARRAY_ARGS = ['temperature', 'altitude', 'v_tas', 'rocd', 'acceleration', 'in_cruise', 'groundspeed']
_ARRAY_DELTA = {
    'temperature': 25.0, 'altitude': -250.0, 'v_tas': 6.0, 'rocd': 1.5, 'acceleration': 0.15, 'groundspeed': 12.0,
}  # fmt: skip
FUEL_ARGS = ['est', 'mtow', 'oew', 'mpl', 'lf', 'reserve']


def _vary_arrays(case, inp):
    v = case.get('vary')
    if v in _ARRAY_DELTA:
        inp[v] = [x + _ARRAY_DELTA[v] for x in inp[v]]
    elif v == 'in_cruise':
        inp[v] = [not x for x in inp[v]]
    elif v == 'segment_distance':
        inp[v] = inp[v] * 1.5
    elif v == 'mass' and 'mass' in inp:
        inp[v] = [x * 0.97 for x in inp[v]]
    return inp


def point_inputs(case):
    return _vary_arrays(case, _point_inputs_base(case))


def outside_altitude(s):
    """First altitude (500 m steps above the C_Tc,2 ceiling, below the 25 km ISA limit) at which the
    maximum climb thrust of the set is negative at cruise speed; the ceiling x 1.2 if there is none."""
    par, env = s['par'], s['env']
    h = par['c_tc2'] * ref.FOOT
    top = h * 1.2
    while h < 24500.0:
        if ref.max_climb_thrust_isa(par, h, env['v_cr']) < 0:
            return h
        h += 500.0
    return min(top, 24500.0)


def profile_inputs(case):
    inp = _vary_arrays(case, _profile_inputs_base(case))
    out = case.get('out')
    if out:
        s = _pset(case)
        n = case['n']
        idx = {'all': range(n), 'last': [n - 1], 'middle': [n // 2], 'first': [0]}[case['where']]
        for i in idx:
            if out == 'above-ceiling':
                h = outside_altitude(s)
                inp['altitude'][i] = h
                inp['temperature'][i] = ref.isa_temperature(h)
            else:  # turboprop faster than C_f2 knots
                v = s['par']['c_f2'] * ref.KNOT * 1.05
                inp['v_tas'][i] = v
                inp['groundspeed'][i] = v
            inp['rocd'][i] = 0.0
            inp['acceleration'][i] = 0.0
    return inp


def fuel_menu(case):
    f = _fuel_menu_base(case)
    v = case.get('vary')
    if v in FUEL_ARGS:
        p = _pset(case)['par']
        f[v] = {
            'est': f['est'] * 0.97, 'mtow': f['mtow'] * 0.98, 'oew': f['oew'] * 1.02, 'mpl': f['mpl'] * 0.9,
            'lf': f['lf'] - 0.1, 'reserve': f['reserve'] + (0.02 if case['k'] == 'fr' else 0.01 * p['max_mass']),
        }[v]  # fmt: skip
    return f


def prescribed_mass(case):
    m = _pset(case)['par'][MASSES[case['m']]]
    return m * 0.97 if case.get('vary') == 'mass' else m


def n_iter(case):
    return 2 if case.get('vary') == 'it' else case['it']


# --------------------------------------------------------------------------- lattices


def _prod(axes):
    keys = list(axes)
    return [dict(zip(keys, c)) for c in itertools.product(*[axes[k] for k in keys])]


def sublattices(tier, seed):
    thorough = tier == 'thorough'
    subs = []
    ax = dict(k=['pt'], eng=ENGINES, ps=[0, 1], alt=list(range(8)), dT=list(range(5)), cr=[0, 1, 2], m=[0, 1, 2])
    subs.append({'name': 'points (thrust, specific ground range)', 'axes': ax, 'cases': _prod(ax)})
    ax = dict(
        k=['ci', 'cf'], eng=ENGINES, ps=[0, 1],
        n=[2, 3, 5, 9] if thorough else [2, 5],
        prof=PROFILES, spd=SPEEDS, cr=CRUISE,
        seg=[1000.0, 50000.0, 200000.0, 'array'] if thorough else [50000.0, 200000.0, 'array'],
        gs=[0.0, -30.0, 30.0] if thorough else [0.0],
        m=[1, 0, 2] if thorough else [1],
        it=[1, 2, 10],
    )  # fmt: skip
    subs.append({'name': 'profiles, prescribed initial / final mass', 'axes': ax, 'cases': _prod(ax)})
    ax = dict(
        k=['fr', 'fv'], eng=ENGINES, ps=[0, 1],
        n=[2, 5, 9] if thorough else [3],
        prof=PROFILES, spd=['accelerating'],
        cr=CRUISE if thorough else ['middle'],
        seg=[50000.0, 200000.0, 'array'] if thorough else [50000.0, 200000.0],
        gs=[0.0],
        est=['ref', 'high', 'low'], mtow=['max', 'tight'],
        lf=[1.0, 0.5] if thorough else [1.0],
        res=[0, 1, 2],
        it=[1, 2, 10],
    )  # fmt: skip
    subs.append({'name': 'profiles, fuel-dependent initial mass', 'axes': ax, 'cases': _prod(ax)})
    # repeated calls on the same model object: every ordered pair (incl. a call repeated) of a fixed
    # menu of calls, per engine type and parameter set; array lengths repeat on purpose
    cases = []
    for eng in ENGINES:
        for ps in (0, 1):
            base = dict(eng=eng, ps=ps)
            prof = dict(base, n=5, spd='accelerating', cr='middle', seg=50000.0, gs=0.0, m=1, it=10)
            fuel = dict(est='high', mtow='max', lf=1.0, res=1)
            menu = [
                dict(base, k='pt', alt=1, dT=1, cr=2, m=1),
                dict(base, k='pt', alt=5, dT=3, cr=2, m=2),
                dict(prof, k='ci', prof='level'),
                dict(prof, k='ci', prof='climb'),
                dict(prof, k='cf', prof='descent', seg='array'),
                dict(prof, k='cf', prof='mixed', n=9),
                dict(prof, k='fr', prof='mixed', **fuel),
                dict(prof, k='fv', prof='climb', **fuel),
            ]
            cases += [dict(k='hist', a=a, b=b) for a in menu for b in menu]
            # the same pairs with the second call passing the first call's array objects refilled in place
            # (possible where the array lengths agree)
            cases += [
                dict(k='hist', a=a, b=b, inplace=True)
                for a in menu for b in menu
                if (a['k'] == 'pt') == (b['k'] == 'pt') and a.get('n') == b.get('n')
            ]  # fmt: skip
    subs.append(
        {
            'name': 'two calls on one model object',
            'axes': {'eng': ENGINES, 'ps': [0, 1], 'first call': list(range(8)), 'second call': list(range(8)),
                     'arrays of the second call': ['fresh', 'same objects refilled in place (equal lengths)']},  # fmt: skip
            'cases': cases,
        }
    )
    # two calls on one model object that differ in exactly ONE argument (all others bit-identical),
    # for every argument of every entry point, in both orders
    cases = []
    arg_axis = {}
    for eng in ENGINES:
        for ps in (0, 1):
            base = dict(eng=eng, ps=ps)
            bases = [dict(base, k='pt', alt=4, dT=3, cr=2, m=1)]
            for pr in ('mixed', 'climb'):
                prof = dict(base, n=5, prof=pr, spd='accelerating', cr='middle', seg=50000.0, gs=0.0, m=1, it=10)
                bases += [dict(prof, k='ci'), dict(prof, k='cf')]
                bases += [dict(prof, k=k, est='high', mtow='max', lf=1.0, res=1) for k in ('fr', 'fv')]
            for b in bases:
                if b['k'] == 'pt':
                    args = ['mass'] + ARRAY_ARGS
                elif b['k'] in ('ci', 'cf'):
                    args = ARRAY_ARGS + ['segment_distance', 'mass', 'it']
                else:
                    args = ARRAY_ARGS + ['segment_distance'] + FUEL_ARGS + ['it']
                arg_axis[b['k']] = args
                for a in args:
                    var = dict(b, vary=a)
                    for inplace in (False, True):
                        cases += [dict(k='hist', a=b, b=var, inplace=inplace), dict(k='hist', a=var, b=b, inplace=inplace)]
    # altitude extremes: points at each extreme (all speeds / climb rates / accelerations, so that the
    # total-energy thrust decides at many of them), and climbs / descents / mixed profiles whose low end
    # is one of the extremes at or below 50 m
    xcases = []
    for eng in ENGINES:
        for ps in (0, 1):
            base = dict(eng=eng, ps=ps)
            for ax in range(len(ALT_EXTREMES)):
                xcases += [dict(base, k='pt', altx=ax, dT=d, cr=2, m=m) for d in (1, 3) for m in (0, 2)]
                if ALT_EXTREMES[ax] > 50.0:
                    continue
                for pr in ('climb', 'descent', 'mixed'):
                    prof = dict(base, n=5, prof=pr, spd='accelerating', cr='middle', seg=50000.0, gs=0.0, m=1, it=10, altx=ax)
                    xcases += [dict(prof, k='ci'), dict(prof, k='cf')]
                    xcases += [dict(prof, k=k, est='ref', mtow='max', lf=1.0, res=1) for k in ('fr', 'fv')]
    subs.append(
        {
            'name': 'altitude extremes (below sea level, 0, tropopause +/- 1 ulp, 25 km limit)',
            'axes': {
                'eng': ENGINES, 'ps': [0, 1], 'altitude': ALT_EXTREMES, 'entry': ['pt', 'ci', 'cf', 'fr', 'fv'],
                'profile': ['climb', 'descent', 'mixed'], 'dT': ['0', 'c_tc4+10'], 'mass': ['min', 'max'],
            },  # fmt: skip
            'cases': xcases,
        }
    )
    # parameter sets with one coefficient on a boundary value (exact zeros / neutral values)
    bcases = []
    for eng in ENGINES:
        for ps in (0, 1):
            base = dict(eng=eng, ps=ps)
            calls_ = [dict(base, k='pt', alt=a, dT=3, cr=2, m=1) for a in (1, 4)]
            for pr in ('descent', 'mixed'):
                for c in ('none', 'middle'):
                    for it in (1, 10):
                        prof = dict(base, n=5, prof=pr, spd='constant', cr=c, seg=50000.0, gs=0.0, m=1, it=it)
                        calls_ += [dict(prof, k='ci'), dict(prof, k='cf')]
                        calls_ += [dict(prof, k=k, est='ref', mtow='max', lf=1.0, res=1) for k in ('fr', 'fv')]
            bcases += [dict(b, pvar=pv) for b in calls_ for pv in PVARS]
    subs.append(
        {
            'name': 'parameter sets with one coefficient on a boundary value',
            'axes': {
                'eng': ENGINES, 'ps': [0, 1], 'coefficient': list(PVARS), 'entry': ['pt', 'ci', 'cf', 'fr', 'fv'],
                'profile': ['descent', 'mixed'], 'cruise flags': ['none', 'middle'], 'n_iter': [1, 10],
            },  # fmt: skip
            'cases': bcases,
        }
    )
    # representations of the same argument values (flags as bool / 0-1 int / 0.0-1.0 float / list / one scalar;
    # constant profiles as scalars; strided views; read-only arrays): the oracle is unchanged
    rcases = []
    for eng in ENGINES:
        for ps in (0, 1):
            base = dict(eng=eng, ps=ps)
            calls_ = [dict(base, k='pt', alt=4, dT=3, cr=c, m=1) for c in (0, 1, 2)]
            for pr in ('mixed', 'level'):
                for c in CRUISE:
                    for sp in SPEEDS:
                        prof = dict(base, n=5, prof=pr, spd=sp, cr=c, seg=50000.0, gs=0.0, m=1, it=10)
                        calls_ += [dict(prof, k='ci'), dict(prof, k='cf')]
                        calls_ += [dict(prof, k=k, est='high', mtow='max', lf=1.0, res=1) for k in ('fr', 'fv')]
            for b in calls_:
                inp = point_inputs(b) if b['k'] == 'pt' else profile_inputs(b)
                rcases += [dict(b, rep=r) for r in REPS if rep_applicable(r, inp)]
    subs.append(
        {
            'name': 'representations of the same argument values',
            'axes': {
                'eng': ENGINES, 'ps': [0, 1], 'entry': ['pt', 'ci', 'cf', 'fr', 'fv'], 'profile': ['mixed', 'level'],
                'speed': SPEEDS, 'cruise flags': CRUISE, 'representation (where applicable)': REPS,
            },  # fmt: skip
            'cases': rcases,
        }
    )
    # two DIFFERENT model objects, one after the other, on identical argument values: every ordered pair of
    # the six parameter sets (incl. two objects of the same set); the second call is the set's own mission and
    # is judged, the first is another aircraft flying the same numbers (not judged, only kept for aliasing)
    dcases = []
    for eng in ENGINES:
        for ps in (0, 1):
            base = dict(eng=eng, ps=ps)
            calls_ = [dict(base, k='pt', alt=4, dT=3, cr=2, m=1)]
            for pr in ('mixed', 'climb'):
                prof = dict(base, n=5, prof=pr, spd='accelerating', cr='middle', seg=50000.0, gs=0.0, m=1, it=10)
                calls_ += [dict(prof, k='ci'), dict(prof, k='cf')]
                calls_ += [dict(prof, k=k, est='high', mtow='max', lf=1.0, res=1) for k in ('fr', 'fv')]
            for b in calls_:
                for e2 in ENGINES:
                    for p2 in (0, 1):
                        for inplace in (False, True):
                            dcases.append(dict(k='hist', a=b, b=b, a_model=dict(eng=e2, ps=p2), inplace=inplace))
    subs.append(
        {
            'name': 'two different model objects one after the other on identical argument values',
            'axes': {
                'second (judged) aircraft': [f'{e}{i}' for e in ENGINES for i in (0, 1)],
                'first aircraft': [f'{e}{i}' for e in ENGINES for i in (0, 1)],
                'entry': ['pt', 'ci', 'cf', 'fr', 'fv'], 'profile': ['mixed', 'climb'],
                'arrays of the second call': ['fresh', 'same objects refilled in place'],
            },  # fmt: skip
            'cases': dcases,
        }
    )
    # points outside the thrust / fuel envelope: only finite / never-increasing / prescribed end / MTOW judged
    ocases = []
    oax = dict(
        k=['ci', 'cf', 'fr', 'fv'], n=[3, 5], prof=['level', 'climb'], where=['all', 'first', 'middle', 'last'],
        seg=[50000.0, 'array'], it=[1, 10], m=[1, 2],
    )  # fmt: skip
    for eng in ENGINES:
        for ps in (0, 1):
            for out in ['above-ceiling'] + (['over-cf2'] if eng == 'Turboprop' else []):
                for c in _prod(oax):
                    c = dict(c, eng=eng, ps=ps, out=out, spd='constant', cr='middle', gs=0.0)
                    if c['k'] in ('fr', 'fv'):
                        c.update(est='ref', mtow='max', lf=1.0, res=1)
                    ocases.append(c)
    subs.append(
        {
            'name': 'profiles with points outside the thrust / fuel envelope (negative thrust limit or fuel coefficient)',
            'axes': dict(oax, eng=ENGINES, ps=[0, 1], out=['above-ceiling', 'over-cf2 (turboprop)']),
            'cases': ocases,
        }
    )
    subs.append(
        {
            'name': 'two calls on one model object differing in exactly one argument',
            'axes': {
                'eng': ENGINES, 'ps': [0, 1], 'entry': ['pt', 'ci', 'cf', 'fr', 'fv'], 'profile': ['mixed', 'climb'],
                'varied argument': sorted({a for v in arg_axis.values() for a in v}), 'order': ['base first', 'variant first'],
                'arrays of the second call': ['fresh', 'same objects refilled in place'],
            },  # fmt: skip
            'cases': cases,
        }
    )
    return subs


# --------------------------------------------------------------------------- driving the real code

_STATE = {}


def worker_init(tier, seed):
    import numpy as np

    from AEIC import constants, units
    from AEIC.BADA.aircraft_parameters import Bada3AircraftParameters
    from AEIC.BADA.model import Bada3FuelBurnModel
    from AEIC.utils import standard_atmosphere as sa

    same = (
        units.FEET_TO_METERS == ref.FOOT and units.KNOTS_TO_MPS == ref.KNOT and constants.g0 == ref.G0
        and constants.R_air == ref.R_AIR and constants.T0 == ref.T0 and constants.p0 == ref.P0
        and sa.beta_tropo == ref.LAPSE and sa.h_p_tropo == ref.H_TROPO
    )  # fmt: skip
    if not same:
        raise HarnessError('unit factors / ISA constants of the tree differ from the digits the reference assumes')
    _STATE['np'] = np
    _STATE['cls'] = (Bada3AircraftParameters, Bada3FuelBurnModel)


def _new_model(case):
    """A fresh model per case (so every recorded case replays on its own); reuse of one object
    across calls is enumerated explicitly by the history sub-lattice."""
    params_cls, model_cls = _STATE['cls']
    s = _pset(case)
    # the library's own parameter object, built the two ways the class offers
    if case['ps'] == 0:
        ap = params_cls(**s['par'])
    else:
        ap = params_cls()
        ap.assign_parameters_fromdict(dict(s['par']))
    return model_cls(ap)


REPS = ['int-flags', 'float-flags', 'list-flags', 'scalar-flags', 'scalars', 'strided-views', 'read-only']
_SCALAR_OK = ['temperature', 'altitude', 'v_tas', 'rocd', 'acceleration', 'mass']


def rep_applicable(rep, inp):
    """A scalar stands for an array only where every element is the same."""
    if rep == 'scalar-flags':
        return len(set(inp['in_cruise'])) == 1
    if rep == 'scalars':
        return any(len(set(inp[k])) == 1 for k in _SCALAR_OK if k in inp)
    return True


def _arrays(inp, buf=None, rep=None):
    """Lists -> numpy arrays. `rep` selects another representation of the same values (case key
    'rep'): cruise flags as 0/1 integers, 0.0/1.0 floats, a Python list of bools or one scalar flag;
    constant numeric profiles as Python scalars; all arrays as strided views of larger buffers; all
    arrays read-only. The values - and therefore the oracle - are unchanged. With a buffer dict, an array object of the same name, shape and dtype
    left by the previous call is refilled IN PLACE and passed again (a caller that keeps its profile
    in pre-allocated arrays); otherwise a fresh array is made (and remembered in the buffer)."""
    np = _STATE['np']
    out = {}
    for k, v in inp.items():
        if not isinstance(v, list):
            out[k] = v
            continue
        dtype = float
        if k == 'in_cruise':
            dtype = {'int-flags': np.int64, 'float-flags': float}.get(rep, bool)
        new = np.array(v, dtype=dtype)
        if rep == 'strided-views':
            big = np.zeros(2 * len(v) + 1, dtype=dtype)
            big[1::2] = new
            new = big[1::2]
        old = None if buf is None else buf.get(k)
        if old is not None and old.shape == new.shape and old.dtype == new.dtype:
            old[...] = new
            new = old
        if buf is not None:
            buf[k] = new
        out[k] = new
    if rep == 'list-flags':
        out['in_cruise'] = [bool(x) for x in inp['in_cruise']]
    elif rep == 'scalar-flags':
        out['in_cruise'] = bool(inp['in_cruise'][0])
    elif rep == 'scalars':
        for k in _SCALAR_OK:
            if k in inp and len(set(inp[k])) == 1:
                out[k] = float(inp[k][0])
    elif rep == 'read-only':
        for v in out.values():
            if isinstance(v, np.ndarray):
                v.flags.writeable = False
    return out


_ORDER = ['temperature', 'altitude', 'v_tas', 'rocd', 'acceleration', 'in_cruise', 'groundspeed']


def _snapshot(a):
    np = _STATE['np']
    return {k: v.copy() for k, v in a.items() if isinstance(v, np.ndarray)}


def _changed_inputs(a, snap):
    """Names of the argument arrays the call under test left different from what it was given."""
    np = _STATE['np']
    return [k for k, c in snap.items() if a[k].dtype != c.dtype or not np.array_equal(a[k], c, equal_nan=c.dtype != bool)]


def _keep_result(label, obj):
    """Remember the very object a call returned plus a copy taken at that moment (multi-call cases
    re-check after the last call that earlier results were not overwritten)."""
    keep = _STATE.get('keep')
    if keep is not None:
        np = _STATE['np']
        keep.append((label, obj, np.array(obj, dtype=float, copy=True)))


def _call_entry(case, inp, model, buf=None):
    """-> (returned mass list | None, recorded sgr calls [(mass list, sgr list)], exception | None)"""
    np = _STATE['np']
    a = _arrays(inp, buf, case.get('rep'))
    calls = []
    orig = model.calculate_specific_ground_range

    def spy(mass, *rest, **kw):
        m_in = np.array(mass, dtype=float).tolist()
        r = orig(mass, *rest, **kw)
        calls.append((m_in, np.array(r, dtype=float).tolist()))
        return r

    args = [a[k] for k in _ORDER] + [a['segment_distance']]
    s = _pset(case)
    if case['k'] in ('ci', 'cf'):
        args += [prescribed_mass(case), n_iter(case)]
    else:
        f = fuel_menu(case)
        args += [f['est'], f['mtow'], f['oew'], f['mpl'], f['lf'], f['reserve'], n_iter(case)]
    model.calculate_specific_ground_range = spy
    snap = _snapshot(a)
    _STATE['changed'] = []
    try:
        r = getattr(model, ENTRY[case['k']])(*args)
        _keep_result(ENTRY[case['k']], r)
        return np.array(r, dtype=float).tolist(), calls, None
    except Exception as ex:  # classified by the caller
        return None, calls, ex
    finally:
        del model.calculate_specific_ground_range
        _STATE['changed'] = _changed_inputs(a, snap)


def _close(a, b, scale=None):
    if not (math.isfinite(a) and math.isfinite(b)):
        return False
    s = max(abs(a), abs(b)) if scale is None else scale
    return abs(a - b) <= RTOL * s + 1e-300


def _internal_error(ex, where):
    cls = type(ex).__name__
    finding = F_SUBSCRIPT if isinstance(ex, TypeError) and 'not subscriptable' in str(ex) else None
    return V(f'internal-error:{cls}', f'{where}: {cls}: {str(ex)[:300]}', finding=finding), f'error:{cls} in {where}'


def _compare_points(par, inp, mass, got_thrust, got_sgr, vio, label):
    """Scalar reference at every point against the code's thrust (optional) and specific ground
    range. -> (reference points, ambiguous?)"""
    prof = dict(inp)
    pts = ref.profile_points(par, mass, prof)
    ambiguous = any(q['margin'] < ref.EPS_BRANCH for q in pts)
    if ambiguous:
        return pts, True
    for i, q in enumerate(pts):
        where = (
            f'{label} point {i}: m={mass[i]} T={inp["temperature"][i]} h={inp["altitude"][i]} v={inp["v_tas"][i]} '
            f'rocd={inp["rocd"][i]} acc={inp["acceleration"][i]} cruise={inp["in_cruise"][i]} gs={inp["groundspeed"][i]}'
        )
        thrust_ok = True
        if got_thrust is not None and not _close(got_thrust[i], q['thrust']):
            thrust_ok = False
            kind = {'TE': 'total-energy-thrust', 'MAXCL': 'thrust-limit', 'MAXCR': 'thrust-limit'}.get(
                q['regime'], 'descent-thrust'
            )
            vio.append(V(kind, f'{where}: thrust {got_thrust[i]!r} != BADA-3 {q["thrust"]!r} (regime {q["regime"]})'))
        if got_sgr is not None and not _close(got_sgr[i], q['sgr']):
            if got_thrust is None:
                # thrust not observed directly: attribute through the implied fuel flow
                kind = 'fuel-flow-or-thrust'
            else:
                kind = 'fuel-flow' if thrust_ok else None
            if kind:
                vio.append(
                    V(kind, f'{where}: ground speed / fuel flow {got_sgr[i]!r} != BADA-3 {q["sgr"]!r} '
                      f'(fuel flow {q["ff"]!r} kg/s, regime {q["regime"]})')
                )  # fmt: skip
    return pts, False


def _run_point(case, model, buf=None):
    np = _STATE['np']
    s = _pset(case)
    inp = point_inputs(case)
    a = _arrays(inp, buf, case.get('rep'))
    vio = []
    snap = _snapshot(a)
    try:
        thr = model.calculate_thrust(*[a[k] for k in ['mass'] + _ORDER[:-1]])
        sgr = model.calculate_specific_ground_range(*[a[k] for k in ['mass'] + _ORDER])
    except Exception as ex:
        v, out = _internal_error(ex, 'calculate_thrust / calculate_specific_ground_range')
        return {'outcome': out, 'nontrivial': True, 'violations': [v]}
    _keep_result('calculate_thrust', thr)
    _keep_result('calculate_specific_ground_range', sgr)
    changed = _changed_inputs(a, snap)
    if changed:
        vio.append(V('input-modified', f'calculate_thrust / calculate_specific_ground_range changed its argument arrays {changed}'))
    thr = np.array(thr, dtype=float).tolist()
    sgr = np.array(sgr, dtype=float).tolist()
    n = len(inp['mass'])
    if len(thr) != n or len(sgr) != n:
        vio.append(V('profile-shape', f'{n} points in, {len(thr)} thrusts / {len(sgr)} ranges out'))
        return {'outcome': 'bad-shape', 'nontrivial': True, 'violations': vio}
    pts, amb = _compare_points(s['par'], inp, inp['mass'], thr, sgr, vio, 'point lattice')
    if amb:
        return {'outcome': 'points:ambiguous-branch', 'nontrivial': False, 'violations': []}
    regimes = '+'.join(sorted({q['regime'] for q in pts}))
    return {'outcome': f'points:{regimes}', 'nontrivial': True, 'violations': vio}


def _run_profile(case, model, buf=None):
    s = _pset(case)
    par = s['par']
    inp = profile_inputs(case)
    k = case['k']
    n = case['n']
    ret, calls, ex = _call_entry(case, inp, model, buf)
    if ex is not None:
        v, out = _internal_error(ex, ENTRY[k])
        return {'outcome': out, 'nontrivial': True, 'violations': [v]}
    vio = []
    if _STATE.get('changed'):
        vio.append(V('input-modified', f'{ENTRY[k]} changed its argument arrays {_STATE["changed"]}'))
    if len(ret) != n or not all(math.isfinite(x) for x in ret) or not calls:
        vio.append(V('profile-shape', f'{ENTRY[k]} returned {ret} for {n} points ({len(calls)} fuel-flow evaluations)'))
        return {'outcome': 'bad-shape', 'nontrivial': True, 'violations': vio}
    lengths = ref.seg_lengths(inp['segment_distance'], n)
    scale = max(abs(x) for x in ret)
    if case.get('out'):
        return _judge_outside(case, ret, calls, scale)

    # BADA-3 equations at the last evaluation the entry point made
    last_mass, last_sgr = calls[-1]
    pts, amb = _compare_points(par, inp, last_mass, None, last_sgr, vio, f'{ENTRY[k]} last evaluation')
    if amb:
        return {'outcome': f'{k}:ambiguous-branch', 'nontrivial': False, 'violations': []}
    # fuel per metre as the entry point itself evaluated it last (verified point by point above),
    # so that the integration clause is judged separately from the fuel-flow clause
    fpm = [0.0 if x < 1.0 else 1.0 / x for x in last_sgr]
    burn = ref.step_burn(fpm, lengths)

    # defect signatures (attribution only; the clauses below decide)
    stale = False
    if k in ('fr', 'fv') and not _close(ret[0], last_mass[0], scale):
        tail = ref.forward_profile(last_mass[0], burn)
        stale = all(_close(ret[i], tail[i], scale) for i in range(1, n))
    backward = False
    if k == 'cf' and isinstance(inp['segment_distance'], list) and lengths != lengths[::-1]:
        rb = ref.step_burn(fpm, lengths[::-1])
        backward = all(_close(ret[i] - ret[i + 1], rb[i], scale) for i in range(n - 1))

    # trapezoid clause on the returned profile
    bad = [i for i in range(n - 1) if not _close(ret[i] - ret[i + 1], burn[i], scale)]
    if bad:
        i = bad[0]
        finding = F_STALE if (stale and bad == [0]) else (F_BACKWARD if backward else None)
        vio.append(
            V('step-ne-trapezoid', f'{ENTRY[k]}: steps {bad}: e.g. step {i} mass decrease {ret[i] - ret[i + 1]!r} kg != '
              f'trapezoid of fuel flow / ground speed {burn[i]!r} kg (segment {lengths[i]} m); returned {ret}', finding=finding)
        )  # fmt: skip
    # never increases
    up = [i for i in range(n - 1) if ret[i + 1] > ret[i] + RTOL * scale]
    if up:
        finding = F_STALE if (stale and up == [0]) else None
        vio.append(V('mass-increases', f'{ENTRY[k]}: mass rises over steps {up}: returned {ret}', finding=finding))

    total = ret[0] - ret[-1]
    if k in ('ci', 'cf'):
        m = prescribed_mass(case)
        got = ret[0] if k == 'ci' else ret[-1]
        if got != m:
            vio.append(V('prescribed-mass', f'{ENTRY[k]}: prescribed {m}, profile {"starts" if k == "ci" else "ends"} at {got!r}'))
        r = ref.iterate_constant_mass(par, inp, inp['segment_distance'], m, n_iter(case), 'initial' if k == 'ci' else 'final')
        if r['margin'] < ref.EPS_BRANCH:
            return {'outcome': f'{k}:ambiguous-branch', 'nontrivial': False, 'violations': []}
        if len(calls) != r['evaluations'] or not all(_close(ret[i], r['mass'][i]) for i in range(n)):
            vio.append(
                V('mass-ne-reference-iteration', f'{ENTRY[k]} n_iter={n_iter(case)}: returned {ret} after {len(calls)} evaluations; '
                  f'reference fixed-point iteration gives {r["mass"]} after {r["evaluations"]}',
                  finding=F_BACKWARD if backward else None)
            )  # fmt: skip
        outcome = f'{k}:{r["stop"]} after {r["evaluations"]}:' + '+'.join(sorted(r['regimes']))
    else:
        f = fuel_menu(case)
        over = [j for j, c in enumerate(calls) if j >= 2 and c[0][0] > f['mtow']]
        if ret[0] > f['mtow'] or over:
            vio.append(V('exceeds-mtow', f'{ENTRY[k]}: initial mass {ret[0]!r} (iterates {[calls[j][0][0] for j in over]}) > MTOW {f["mtow"]}'))
        stop = 'early' if len(calls) < n_iter(case) + 1 else 'exhausted'
        outcome = f'{k}:{stop} after {len(calls)}:' + ('at-mtow' if ret[0] == f['mtow'] else 'below-mtow')
    return {'outcome': outcome, 'nontrivial': total > 0, 'violations': vio}


def _judge_outside(case, ret, calls, scale):
    """Points outside the thrust / fuel envelope (negative BADA-3 thrust limit or fuel coefficient):
    only the clauses that hold for whatever the model returns are judged - finite profile (checked by
    the caller), never increasing, prescribed end exact, MTOW bound."""
    k = case['k']
    n = case['n']
    vio = []
    up = [i for i in range(n - 1) if ret[i + 1] > ret[i] + RTOL * scale]
    if up:
        vio.append(V('mass-increases', f'{ENTRY[k]} ({case["out"]} at {case["where"]} points): mass rises over steps {up}: returned {ret}'))
    if k in ('ci', 'cf'):
        m = prescribed_mass(case)
        got = ret[0] if k == 'ci' else ret[-1]
        if got != m:
            vio.append(V('prescribed-mass', f'{ENTRY[k]}: prescribed {m}, profile {"starts" if k == "ci" else "ends"} at {got!r}'))
    else:
        f = fuel_menu(case)
        if ret[0] > f['mtow']:
            vio.append(V('exceeds-mtow', f'{ENTRY[k]}: initial mass {ret[0]!r} > MTOW {f["mtow"]}'))
    neg = any(x < 0 for c in calls for x in c[1])
    total = ret[0] - ret[-1]
    outcome = f'{k}:outside envelope:' + ('negative fuel flow seen, ' if neg else 'fuel flow stays positive, ') + ('burns' if total > 0 else 'no burn')
    return {'outcome': outcome, 'nontrivial': True, 'violations': vio}


def _run_single(case, model, buf=None):
    return _run_point(case, model, buf) if case['k'] == 'pt' else _run_profile(case, model, buf)


def run_case(case):
    if case['k'] == 'hist':
        # two calls in one process: the second must be judged exactly like a first call, and what the
        # first call returned must still be what it was when the second has finished
        try:
            model = _new_model(case['b'])
            # first call on the same model object, or on another aircraft's model (case['a_model'])
            # flying the very same argument values
            model_a = _new_model(case['a_model']) if case.get('a_model') else model
        except Exception as ex:
            v, out = _internal_error(ex, 'Bada3FuelBurnModel(Bada3AircraftParameters)')
            return {'outcome': out, 'nontrivial': True, 'violations': [v]}
        np = _STATE['np']
        buf = {} if case.get('inplace') else None
        _STATE['keep'] = keep = []
        try:
            first = _run_single(case['a'], model_a, buf)
            n_first = len(keep)
            r = _run_single(case['b'], model, buf)
        finally:
            _STATE['keep'] = None
        if case.get('a_model'):
            first_label = f'{case["a_model"]["eng"]}{case["a_model"]["ps"]} model, unjudged'
            if first['outcome'].startswith('error'):
                first_label += ' ' + first['outcome'].split(' in ')[0]
        else:
            first_label = first['outcome'].split(':')[0]
            r['violations'] = [v for v in first['violations'] if v['kind'] == 'input-modified'] + r['violations']
        for label, obj, copy in keep[:n_first]:
            now = np.array(obj, dtype=float)
            if now.shape != copy.shape or not np.array_equal(now, copy, equal_nan=True):
                r['violations'].append(
                    V('earlier-result-changed', f'the array returned by the first call ({label}) read {copy.tolist()} when it was '
                      f'returned and reads {now.tolist()} after the second call ({case["b"]["k"]})')
                )  # fmt: skip
        how = 'same arrays refilled' if buf is not None else 'fresh arrays'
        r['outcome'] = f'after {case["a"]["k"]} ({first_label}), {how}: ' + r['outcome'].split(':')[0]
        return r
    try:
        model = _new_model(case)
    except Exception as ex:
        v, out = _internal_error(ex, 'Bada3FuelBurnModel(Bada3AircraftParameters)')
        return {'outcome': out, 'nontrivial': True, 'violations': [v]}
    return _run_single(case, model)
