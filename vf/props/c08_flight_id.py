"""C08 - lookup by flight identifier returns exactly the matching trajectory.

Deciding step: explicit-state BFS over histories of identified stores (identifiers added in the
fixed non-monotone order 50, 10, 40, 20, 30, ...) with lookups before any sync, across append
sessions and reopen, against a dict model; a second exploration on unidentified files where
identified additions must be refused; exhaustive two/three-store merges (all id-assignment orders, file-name orders, numbered ranges)
followed by lookups of every identifier in the merged store.
"""

from __future__ import annotations

from vf import runner
from vf.engines import hist
from vf.props import c09_merge as c09
from vf.props.c07_store_index import coverage

ID = 'C08'
LEVEL = 'model_checking'
ENGINE = 'custom'
DRIVER = ('vf.ref.store_model', 'driver')
ASSUMPTIONS = [
    'lookups are driven on file-backed stores (get_flight is defined through the on-file index)',
    'one store path per history; identifiers distinct; 3-point trajectories',
    'a lookup in a store that holds no trajectory yet is executed but not judged',
]
BOUNDS = {
    'quick': ('c08', 4, 9, 'c08u', 6, 'c08q', 4),
    'thorough': ('c08', 6, 13, 'c08u', 9, 'c08q', 5),
}


def _merged_case(case):
    c09.worker_init('quick', 0)
    r = c09.run_case(case)
    for v in r['violations']:
        v['case'] = case
    return r


def merged_lookups(tier):
    """Lookup in merged stores: every identified merge of the C09 concatenation and unpadded-pattern
    sub-lattices with <=3 input stores (all id-assignment orders, name orders, range starts)."""
    cases = []
    for sl in c09.sublattices(tier, 0):
        if sl['name'] in ('concatenation', 'unpadded-pattern'):
            cases += [c for c in sl['cases'] if c['scheme'] != 'none' and (len(c['sizes']) in (2, 3) or sl['name'] == 'unpadded-pattern') and max(c['sizes']) <= 2]
    res = runner.pool_map(_merged_case, cases, runner.NPROC, None, ())
    return len(cases), [v for r in res for v in r['violations']]


def run(tier, seed):
    alpha, maxt, depth, ualpha, udepth2, nalpha, ndepth = BOUNDS[tier]
    a = hist.explore(DRIVER, (alpha, True, maxt), depth, dedup=True, seed=seed, label='identified')
    u = hist.explore(DRIVER, (ualpha, False, 2), udepth2, dedup=True, seed=seed, label='unidentified-file')
    b = hist.explore(DRIVER, (nalpha, True, 2), ndepth, dedup=False, seed=seed, label='undedup')
    cov = coverage(a, b, depth, ndepth)
    cov['states'] += u['states']
    cov['transitions'] += u['transitions']
    cov['traces_validated_against_impl'] += u['traces']
    cov['unidentified_file_states'] = u['states']
    # identified trajectories split over a base and an associated file
    c = hist.explore(DRIVER, ('c08q', True, 2, 'assoc'), 6 if tier == 'quick' else 8, dedup=True, seed=seed, label='assoc-layout')
    cov['states'] += c['states']
    cov['transitions'] += c['transitions']
    cov['traces_validated_against_impl'] += c['traces']
    cov['associated_layout_states'] = c['states']
    nm, vm = merged_lookups(tier)
    vm = c['violations'] + vm
    cov['merged_store_lookup_cases'] = nm
    cov['traces_validated_against_impl'] += nm
    return cov, a['violations'] + u['violations'] + b['violations'] + vm


def replay(case):
    if 'history' not in case:
        return _merged_case(case)['violations']
    return hist.replay(DRIVER, case)
