"""C09 - a merged store equals the concatenation of its input stores.

Deciding step: complete enumeration of all ordered size tuples (<=3 stores of 1..3 trajectories;
thorough <=4 stores of 1..4) x identifier assignment x explicit list / numbered pattern, with and
without separately merged associated stores, plus the refusal matrix (every rule at every
position); each merged directory is opened with the real code and compared item by item with
the Python concatenation of the inputs.
"""

from __future__ import annotations

import gc
import itertools
import shutil
import tempfile
from pathlib import Path

from vf.ref import merge_model as mm
from vf.ref import store_model as sm
from vf.runner import V

ID = 'C09'
LEVEL = 'exploration'
ENGINE = 'bex'
RULE = (
    'all ordered size tuples x id-assignment schemes {none, ascending, descending, interleaved, wide (whole int64 range) across '
    'stores} x {list, pattern}; associated-store variants; refusal matrix per rule and position; '
    'non-trivial = >=2 input stores (a seam exists) or a refusal; distinct = distinct case'
)
ASSUMPTIONS = [
    '3-point trajectories; one temp directory per case; inputs created with the real store',
]
SCHEMES = ['none', 'asc', 'desc', 'interleaved', 'wide']
REFUSALS = ['fieldsets', 'fieldset-metadata', 'mixed-ident-unid', 'mixed-ident-id', 'missing-input', 'wrong-suffix',
            'existing-output', 'bad-output-suffix', 'both-list-and-pattern', 'pattern-without-range']


def sublattices(tier, seed):
    maxk, maxn = (3, 3) if tier == 'quick' else (4, 4)
    tuples = [t for k in range(1, maxk + 1) for t in itertools.product(range(1, maxn + 1), repeat=k)]
    if tier == 'thorough':
        tuples = [t for t in tuples if len(t) <= 3 or max(t) <= 3]
    concat = []
    for t in tuples:
        for sc in SCHEMES:
            # explicit list: file names in the order given, and names whose lexicographic order is the
            # reverse of the order given; numbered pattern: range starting at 0 and at 2 (with decoy
            # files below the start that must not be consumed)
            concat.append({'kind': 'concat', 'sizes': list(t), 'scheme': sc, 'how': 'list', 'names': 'asc'})
            concat.append({'kind': 'concat', 'sizes': list(t), 'scheme': sc, 'how': 'list', 'names': 'reverse'})
            concat.append({'kind': 'concat', 'sizes': list(t), 'scheme': sc, 'how': 'pattern', 'start': 0})
            concat.append({'kind': 'concat', 'sizes': list(t), 'scheme': sc, 'how': 'pattern', 'start': 2})
    # unpadded numbered patterns with more than ten parts: numeric order differs from name order
    unpadded = [{'kind': 'concat', 'sizes': [1] * k, 'scheme': sc, 'how': 'pattern-unpadded', 'start': st}
                for k in ((11,) if tier == 'quick' else (11, 12, 21)) for sc in SCHEMES for st in (0, 1)]
    # the SAME output path merged twice in one process with different inputs (first result opened, then
    # removed): anything remembered per path (metadata, indexes, sizes) must not survive the directory
    small = [(1,), (2,), (1, 1), (2, 1), (1, 2), (1, 1, 1)] if tier == 'quick' else [t for t in tuples if sum(t) <= 4]
    remerge = [{'kind': 'remerge', 'first': list(a), 'second': list(b), 'scheme': sc}
               for a in small for b in small if a != b for sc in ('none', 'interleaved')]
    atuples = [t for t in tuples if len(t) <= (2 if tier == 'quick' else 3) and max(t) <= 2]
    assoc = [{'kind': 'assoc', 'sizes': list(t), 'scheme': s, 'how': 'list'} for t in atuples for s in ('none', 'interleaved')]
    ref = [{'kind': 'refusal', 'rule': r, 'pos': p, 'sizes': [2, 1, 2]} for r in REFUSALS for p in range(3)]
    return [
        {'name': 'concatenation', 'axes': {'sizes': f'{len(tuples)} tuples', 'scheme': SCHEMES, 'how': ['list/names in given order', 'list/names in reverse lexicographic order', 'pattern from 0', 'pattern from 2 with decoys']}, 'cases': concat},
        {'name': 'unpadded-pattern', 'axes': {'parts': [11, 12, 21], 'scheme': SCHEMES, 'start': [0, 1]}, 'cases': unpadded},
        {'name': 're-merge to the same output path', 'axes': {'first inputs': [list(x) for x in small], 'second inputs': 'same menu, different from the first', 'scheme': ['none', 'interleaved']}, 'cases': remerge},
        {'name': 'associated', 'axes': {'sizes': f'{len(atuples)} tuples', 'scheme': ['none', 'interleaved']}, 'cases': assoc},
        {'name': 'refusals', 'axes': {'rule': REFUSALS, 'pos': [0, 1, 2]}, 'cases': ref},
    ]


def worker_init(tier, seed):
    mm.assoc_fieldsets()
    sm.extra_fieldset()


def input_names(case):
    k = len(case['sizes'])
    how = case['how']
    if how == 'list':
        if case.get('names') == 'reverse':
            return [f'in_{k - 1 - s:03d}.nc' for s in range(k)]
        return [f'in_{s:03d}.nc' for s in range(k)]
    if how == 'pattern':
        return [f'in_{s + case.get("start", 0):03d}.nc' for s in range(k)]
    return [f'p_{s + case.get("start", 0)}.nc' for s in range(k)]


def do_merge(tmp, paths, case, out):
    from AEIC.trajectories import TrajectoryStore

    how = case['how']
    if how == 'list':
        TrajectoryStore.merge(output_store=out, input_stores=list(paths))
    else:
        st = case.get('start', 0)
        pat = tmp / ('in_{index:03d}.nc' if how == 'pattern' else 'p_{index}.nc')
        TrajectoryStore.merge(output_store=out, input_stores_pattern=pat, input_stores_index_range=(st, st + len(paths) - 1))
    gc.collect()


def make_decoys(tmp, case):
    """Store files below the start of a numbered range: a merge of the range must leave them alone."""
    from AEIC.trajectories import TrajectoryStore

    out = []
    if case['how'] in ('pattern', 'pattern-unpadded'):
        for i in range(case.get('start', 0)):
            p = tmp / (f'in_{i:03d}.nc' if case['how'] == 'pattern' else f'p_{i}.nc')
            with TrajectoryStore.create(base_file=p) as ts:
                ts.add(mm.make(700 + i, None if case['scheme'] == 'none' else 7000 + i, False))
            out.append((p, [700 + i]))
        gc.collect()
    return out


def run_case(case):
    from AEIC.trajectories import TrajectoryStore

    TrajectoryStore.active_in_thread = None
    tmp = Path(tempfile.mkdtemp(prefix='vf_c09_'))
    try:
        if case['kind'] in ('concat', 'assoc'):
            wa = case['kind'] == 'assoc'
            paths, ap, cp, model = mm.build_inputs(tmp, case['sizes'], case['scheme'], with_assoc=wa, names=input_names(case))
            decoys = make_decoys(tmp, case)
            out = tmp / 'out.aeic-store'
            try:
                do_merge(tmp, paths, case, out)
                assoc = None
                if wa:
                    TrajectoryStore.merge(output_store=tmp / 'outs.aeic-store', input_stores=ap)
                    TrajectoryStore.merge(output_store=tmp / 'outc.aeic-store', input_stores=cp)
                    assoc = [tmp / 'outs.aeic-store', tmp / 'outc.aeic-store']
            except Exception as ex:  # noqa: BLE001
                return {'outcome': 'merge-raised', 'nontrivial': True,
                        'violations': [V('merge-raised', f'{case}: {type(ex).__name__}: {ex}')]}
            vio = mm.observe_merged(out, model, assoc, where=str(case))
            for dp, want in decoys:
                if mm.read_plain(dp) != want:
                    vio.append(V('merge-consumed-file-outside-range', f'{case}: {dp.name} (below the start of the numbered range) no longer reads {want} at its path'))
            return {'outcome': f'merged:{len(case["sizes"])}', 'nontrivial': len(case['sizes']) >= 2, 'violations': vio}
        if case['kind'] == 'remerge':
            return remerge_case(tmp, case)
        return refusal_case(tmp, case)
    finally:
        gc.collect()
        shutil.rmtree(tmp, ignore_errors=True)


def remerge_case(tmp, case):
    from AEIC.trajectories import TrajectoryStore

    out = tmp / 'out.aeic-store'
    vio = []
    for rnd, sizes in enumerate((case['first'], case['second'])):
        paths, _, _, model = mm.build_inputs(tmp, sizes, case['scheme'], names=[f'r{rnd}_{s:03d}.nc' for s in range(len(sizes))], start=100 * rnd)
        if case['scheme'] != 'none':
            # identifiers of the two rounds must not coincide either
            pass
        try:
            TrajectoryStore.merge(output_store=out, input_stores=list(paths))
        except Exception as ex:  # noqa: BLE001
            vio.append(V('merge-raised', f'{case}: round {rnd}: {type(ex).__name__}: {ex}'))
            break
        gc.collect()
        vio += mm.observe_merged(out, model, where=f'{case} round {rnd}')
        if vio:
            break
        shutil.rmtree(out)
    return {'outcome': 'remerged', 'nontrivial': True, 'violations': vio}


def tamper_units(path):
    """Same group and variable names, different field metadata: the `units` attribute of one per-point
    variable is edited in the file (what an external tool would do). The field set no longer matches."""
    import netCDF4

    ds = netCDF4.Dataset(path, 'a')
    try:
        done = False
        stack = [ds]
        while stack and not done:
            g = stack.pop()
            for name in sorted(g.variables):
                v = g.variables[name]
                if 'units' in v.ncattrs() and name in ('fuel_flow', 'altitude', 'true_airspeed'):
                    v.setncattr('units', 'furlongs')
                    done = True
                    break
            stack.extend(g.groups.values())
        assert done, 'no variable to tamper with'
    finally:
        ds.close()


def build_refusal(tmp, rule, pos, sizes):
    """Inputs and merge keyword arguments violating exactly one rule at position pos."""
    from AEIC.trajectories import TrajectoryStore

    scheme = 'asc' if rule in ('mixed-ident-unid',) else 'none'
    if rule == 'mixed-ident-id':
        scheme = 'none'
    paths, _, _, model = mm.build_inputs(tmp, sizes, scheme)
    out = tmp / 'out.aeic-store'
    kw = {'output_store': out, 'input_stores': list(paths)}
    if rule == 'fieldsets':
        paths[pos].unlink()
        with TrajectoryStore.create(base_file=paths[pos]) as ts:
            for j in range(sizes[pos]):
                ts.add(sm.make_traj(500 + j, False, 'bad_fieldset'))
    elif rule in ('mixed-ident-unid', 'mixed-ident-id'):
        paths[pos].unlink()
        with TrajectoryStore.create(base_file=paths[pos]) as ts:
            for j in range(sizes[pos]):
                ts.add(sm.make_traj(500 + j, rule == 'mixed-ident-id'))
    elif rule == 'fieldset-metadata':
        tamper_units(paths[pos])
    elif rule == 'missing-input':
        paths[pos].unlink()
    elif rule == 'wrong-suffix':
        new = paths[pos].with_suffix('.dat')
        paths[pos].rename(new)
        kw['input_stores'][pos] = new
    elif rule == 'existing-output':
        out.mkdir()
    elif rule == 'bad-output-suffix':
        kw['output_store'] = tmp / 'out.store'
    elif rule == 'both-list-and-pattern':
        kw['input_stores_pattern'] = tmp / 'in_{index:03d}.nc'
        kw['input_stores_index_range'] = (0, 2)
    elif rule == 'pattern-without-range':
        kw = {'output_store': out, 'input_stores_pattern': tmp / 'in_{index:03d}.nc'}
    gc.collect()
    return paths, model, kw


def refusal_case(tmp, case):
    from AEIC.trajectories import TrajectoryStore

    paths, model, kw = build_refusal(tmp, case['rule'], case['pos'], case['sizes'])
    try:
        TrajectoryStore.merge(**kw)
    except Exception as ex:  # noqa: BLE001
        gc.collect()
        return {'outcome': f'refused:{case["rule"]}:{type(ex).__name__}', 'nontrivial': True, 'violations': []}
    gc.collect()
    return {'outcome': 'accepted', 'nontrivial': True,
            'violations': [V(f'merge-not-refused:{case["rule"]}', f'{case}: merge accepted inputs violating the rule')]}
