"""C04 - gridding conserves every integrated quantity.

Deciding step: complete enumeration of the declared path/grid lattice (vf.ref.c04_gridref.sublattices)
on the real Gridder.grid_trajectory; every returned piece is re-summed per segment (pieces are
grouped by a state variable carrying the segment number) and compared with the exact interval
oracle (rational crossing parameters, own geodesic lengths): never less than the segment's value,
never more than the value times the oracle's own map-line excess.
"""

from __future__ import annotations

import numpy as np

from vf.ref import c04_gridref as R
from vf.runner import V

ID = 'C04'
LEVEL = 'exploration'
ENGINE = 'bex'
RULE = (
    'every sub-lattice of vf.ref.c04_gridref.sublattices is enumerated completely: all ordered pairs of a '
    'sub-cell point lattice (cell interiors 1/4, 1/2, 3/4, every grid line and corner, lowest/highest line) on three '
    'grids, exact corner pass-throughs, one antimeridian crossing in both directions as only/first/middle/last '
    'segment, all 3- and 4-point paths of a reduced lattice, altitude/time axes, 0-2 state x 0-3 integrated '
    'variables, a scale axis of legs from 1 cm to 10 m (1e-7..1e-5 degree and just below/above 0.5, 1, 2, 10 m) straddling a grid '
    'line / corner / the antimeridian, touching it, or inside one cell, alone and between ordinary legs; a case is non-trivial when some segment crosses >= 1 grid line or is a repeated point'
)
ASSUMPTIONS = [
    'shapely is not installed: AEIC.gridding.grid is imported with a harness-side stub for shapely.geometry.Polygon (only grid_polygon uses it)',
    'all points lie within [lowest grid line, highest grid line]; poles and more than one antimeridian crossing are excluded',
    'coordinates are multiples of 0.001 degree (1e-7 degree in the tiny-leg sub-lattices); nothing is claimed between lattice points',
    'sums are compared to 1e-9 + 5e-8 m / (geodesic length of the segment): float64 radians and the geodesic solver resolve a few nanometres (largest deviation of the unchanged code on the 3 300 tiny legs: 4.8e-9 m / length)',
    'ordinary segment: sum of pieces / value must lie in [1, R] (to 1e-9), R = (sum of geodesic lengths of the oracle intersection polyline) / (geodesic length of the segment); R = 1 inside one cell',
    'antimeridian segment: sum of pieces / value must lie in [1 - 1e-9, 1 + 2e-3] (route across the antimeridian is not prescribed by the conservation clause)',
    'every case is evaluated in a forked child of a worker that has never gridded anything, so each verdict is reproducible in a fresh process; '
    'state carried between calls is explored by the sequence sub-lattices (2-3 paths gridded in one process, same or new Gridder object) and by the order-independence pass',
]

RTOL = 1e-9


def sublattices(tier, seed):
    return R.sublattices(tier, seed)


def worker_init(tier, seed):
    for gid in R.GRIDS:
        R.gridder(gid, 'none')


def conservation(ev):
    p, tab, segs = ev['p'], ev['tab'], ev['segs']
    vio = []
    nseg = len(segs)
    tags = tab['sv'][0]
    orphan = ~np.isin(tags, np.arange(nseg, dtype=float))
    if orphan.any():
        vio.append(V('orphan-piece', f'{int(orphan.sum())} pieces carry a segment number outside 0..{nseg - 1}: {tags.tolist()}'))
        return vio  # pieces cannot be grouped by segment: nothing below would be meaningful
    for j, arr in enumerate(tab['iv']):
        vals = R.integrated_values(p['vals'], j, nseg)
        lo_t = hi_t = tol_t = 0.0
        seg_bad = False
        for k, s in enumerate(segs):
            ex = s['exact']
            v = float(vals[k])
            pcs = arr[tags == k]
            ssum = float(pcs.sum())
            where = f'integrated variable {j}, {R.where_segment(p, k)}, value {v}'
            if not np.all(np.isfinite(pcs)):
                f = 'C04-antimeridian-same-point-nan' if (ex['zero'] and s['am']) else None
                vio.append(V('non-finite', f'{where}: pieces {pcs.tolist()}', finding=f))
                seg_bad = True
                continue
            if ex['zero']:
                lo = hi = v
                what = 'repeated point: the whole value must stay in the one cell'
            elif s['am']:
                lo, hi = v, v * (1.0 + R.AM_EXCESS_CAP)
                what = f'antimeridian segment: allowed [{lo}, {hi}]'
            else:
                r = sum(x['raw'] for x in ex['pieces'])
                lo, hi = v, v * max(r, 1.0)
                what = f'allowed [{lo!r}, {hi!r}] (oracle map-line excess ratio {r!r} over {len(ex["pieces"])} intervals)'
            tol = R.ratio_tol(ex['L'], p['rep'], s['aspect']) * max(abs(v), 1e-300)
            tol_t += tol
            lo_t += lo
            hi_t += hi
            if np.any(pcs < -tol):
                vio.append(V('negative-piece', f'{where}: pieces {pcs.tolist()}'))
            if not (lo - tol <= ssum <= hi + tol):
                f = None
                if ex['zero'] and v != 0 and len(pcs) and np.all(pcs == 0.0):
                    f = 'C04-repeated-point-drops-value'
                if ex['zero'] and not s['am'] and v != 0 and len(pcs) >= 2 and np.all(pcs == v):
                    # two float64 positions with geodesic distance exactly 0 on different sides of
                    # a grid line: every sub-segment keeps the whole value
                    f = 'C04-zero-length-leg-across-grid-line-counted-per-cell'
                vio.append(V('segment-sum', f'{where}: pieces {pcs.tolist()} sum to {ssum!r}; {what}', finding=f))
                seg_bad = True
        tot = float(np.sum(arr))
        if not seg_bad and not orphan.any():
            tol = tol_t + RTOL * max(sum(abs(float(x)) for x in vals[:nseg]), 1e-300)
            if not (lo_t - tol <= tot <= hi_t + tol):
                vio.append(V('total', f'integrated variable {j}: gridded total {tot!r} outside [{lo_t!r}, {hi_t!r}]'))
    return vio


def run_case(case):
    return R.run_isolated(run_single, case)


def run_single(case, fresh=False):
    ev = R.evaluate(case, fresh=fresh)
    if 'error' in ev:
        ex = ev['error']
        return {'outcome': f'error:{type(ex).__name__}', 'nontrivial': True, 'violations': [V('exception', f'{type(ex).__name__}: {str(ex)[:300]}')]}
    if 'problems' in ev:
        return {'outcome': 'malformed-output', 'nontrivial': True, 'violations': [V(k, d) for k, d in ev['problems']]}
    vio = conservation(ev)
    # variable counts must not change any integrated value (so conservation transfers)
    vio += [V(k, d) for k, d in ev['variant'] if k in ('exception', 'variable-count-changes-values', 'shape', 'length-mismatch')]
    return {'outcome': R.outcome_class(ev), 'nontrivial': R.nontrivial(ev), 'violations': vio}


def observe(case):
    p = R.case_params(case)
    kind, res = R.run_impl(p, max(p['ns'], 1), max(p['ni'], 1))
    if kind == 'raise':
        return ['raise', type(res).__name__]
    out = res['out']
    return [None if a is None else np.asarray(a, float).tolist() for a in out[:4]] + [[np.asarray(a, float).tolist() for a in t] for t in out[4:]]
